(* Model/PolicyLTS.v — drain-and-swap of the policy (C16) as a labelled transition system.
   No proofs here.  One transition per atomic step of the Go code; requests, updates and
   connections are identified by arbitrary N and there is no bound on how many exist.

   Go (current /repo)                                     model
   ------------------------------------------------------------------------------------------
   AbsfsNFS.policy   atomic.Pointer[PolicyOptions]        cur (version counter), cur_pol (value)
   AbsfsNFS.rateLimiter (plain field)                     lim : option N   (identity = version of the
                                                          update that built it), lim_gen = version of
                                                          the last update that ran the swap code
   AbsfsNFS.policyMu  sync.Mutex                          pmu : option uid      (holder)
   AbsfsNFS.policyRWMu sync.RWMutex                       readers : list rid, wr : WNone|WPending u|WHolding u
   AbsfsNFS.mu (RWMutex around rateLimiter)               critical sections are single steps (LimRead, USwap)

   sync.RWMutex, as a DEFINITION (Go 1.23 sync/rwmutex.go):
     Lock     = announce (readerCount -= rwmutexMaxReaders: "pending"), then wait until the readers
                that were active have left;  rendered as two steps ULock (announce) and UAcquire
                (enabled only when readers = []).
     TryRLock = fails iff a writer is pending or holding (readerCount < 0), never blocks.
     RUnlock  = leave the reader set.  Unlock = wr := WNone.
   options.go UpdatePolicyOptions:
     policyMu.Lock (UMu) ; old := policy.Load ; Squash check, Lock() announce (ULock) ; readers drained (UAcquire) ;
     policy.Store (UStore) ; n.mu.Lock; rateLimiter = ...; n.mu.Unlock (USwap) ; policyRWMu.Unlock (UUnlock) ;
     deferred policyMu.Unlock + return (URet).
   server.go handleConnectionLoop, per request read off a connection (Arrive r (Some c)):
     currentRateLimiter() (LimRead: n.mu.RLock) ; [limiter != nil] policy.Load().EnableRateLimiting (EnRead) ;
     AllowRequest (Rate r allow: the bucket's decision is an input, forced to true when not limited) ;
     HandleCall.
   nfs_handlers.go HandleCall:
     TryRLock (TryRLock r: success -> reader, failure -> drainReply) ; snapshotOptions (Snap) ;
     ValidateAuthentication (Auth r ok: denied -> RUnlock + MSG_DENIED) ; go func(){ defer RUnlock; ... } :
     backend operations / handler reads of policy.Load() (Op r), handler reads of the plain field
     h.server.handler.rateLimiter (OpLim r: READDIR, READDIRPLUS, large READ/WRITE, MNT) ; reply sent or
     dropped (Finish r) ; deferred RUnlock (RUnlock r).  HandleCall itself returns the reply
     (HReturn r) or gives up on ctx.Done (HTimeout r) while the goroutine keeps the read lock.
   Requests that do not come from a connection loop (direct HandleCall callers) are Arrive r None.
   Probe b is the harness's TryRLock+RUnlock probe: enabled iff b = (a writer is pending or holding). *)
From Coq Require Import List NArith Bool.
Import ListNotations.
Open Scope N_scope.

Definition fmap (A : Type) := N -> option A.
Definition fempty {A} : fmap A := fun _ => None.
Definition fset {A} (m : fmap A) (k : N) (v : A) : fmap A := fun x => if x =? k then Some v else m x.

(* the part of PolicyOptions the property is about *)
Record policy := { p_ro : bool; p_enable : bool; p_cfg : option N (* RateLimitConfig: per-connection burst *);
                   p_squash : N; p_maxsize : N (* MaxFileSize *); p_secure : bool }.

Inductive wstate := WNone | WPending (u : N) | WHolding (u : N).

Inductive rpc :=
| RArrived | RLimRead | REnRead | RLimited (* final: rate-limit MSG_DENIED *)
| RCalling | RJuke (* final: drainReply *) | RLocked | RSnapped | RAuthDenied (* final *)
| RRunning | RSent | RDone.
Inductive hst := HNone | HWait | HReply | HTimeout.

Record req := {
  r_conn : option N; r_pc : rpc; r_h : hst;
  r_arr_ret : N;            (* ghost: highest version of an update that had returned when r arrived *)
  r_lim : option N; r_limgen : N;     (* what currentRateLimiter() returned, and its generation *)
  r_en : bool; r_enver : N;           (* EnableRateLimiting as read, and the version it was read from *)
  r_checked : bool;                   (* AllowRequest was consulted *)
  r_adm : N;                          (* version in force at the successful TryRLock *)
  r_snap : N; r_snap_ro : bool;       (* snapshotOptions *)
  r_drain : bool }.                   (* ghost: a writer was pending/holding at the TryRLock *)

Inductive upc := UCalled | UHasMu | USquashErr | UPending | UHolding | UStored | USwapped | UUnlocked | UReturned.
Record upd := { u_pol : policy; u_pc : upc; u_ver : N; u_lim : option N (* limiter in force after its swap *) }.

Inductive tid := TReq (r : N) | TUpd (u : N).
Inductive lockid := LkPolicyMu | LkRW | LkNmu.
Inductive lmode := MR | MW.
(* one access to the only plain (non-atomic) shared location, the field AbsfsNFS.rateLimiter *)
Record access := { a_t : tid; a_write : bool; a_locks : list (lockid * lmode) }.

Record state := {
  cur : N; cur_pol : policy; lim : option N; lim_gen : N;
  pmu : option N; wr : wstate; readers : list N;
  reqs : fmap req; upds : fmap upd; conns : list N;
  retmax : N;                                   (* ghost: highest version of a returned update *)
  oplog : list (N * N * bool);                  (* (request, version seen, ReadOnly seen) per backend op *)
  limlog : list (N * N * option N);             (* (request, generation, limiter) per handler read of the field *)
  alog : list access }.

Definition init (p0 : policy) (l0 : option N) : state :=
  {| cur := 0; cur_pol := p0; lim := l0; lim_gen := 0; pmu := None; wr := WNone; readers := [];
     reqs := fempty; upds := fempty; conns := []; retmax := 0; oplog := []; limlog := []; alog := [] |}.

Inductive label :=
| ConnOpen (c : N)
| Arrive (r : N) (c : option N) | LimRead (r : N) | EnRead (r : N) | Rate (r : N) (allow : bool)
| TryRLock (r : N) | Snap (r : N) | Auth (r : N) (ok : bool)
| Op (r : N) | OpLim (r : N) | Finish (r : N) | RUnlock (r : N) | HReturn (r : N) | HTimeoutL (r : N)
| UCall (u : N) (p : policy) | UMu (u : N) | ULock (u : N) | UAcquire (u : N) | UStore (u : N)
| USwap (u : N) | UUnlock (u : N) | URet (u : N)
| Probe (b : bool).

(* ---- field setters ---- *)
Definition set_req (s : state) (r : N) (q : req) : state :=
  {| cur := cur s; cur_pol := cur_pol s; lim := lim s; lim_gen := lim_gen s; pmu := pmu s; wr := wr s;
     readers := readers s; reqs := fset (reqs s) r q; upds := upds s; conns := conns s; retmax := retmax s;
     oplog := oplog s; limlog := limlog s; alog := alog s |}.
Definition set_upd (s : state) (u : N) (q : upd) : state :=
  {| cur := cur s; cur_pol := cur_pol s; lim := lim s; lim_gen := lim_gen s; pmu := pmu s; wr := wr s;
     readers := readers s; reqs := reqs s; upds := fset (upds s) u q; conns := conns s; retmax := retmax s;
     oplog := oplog s; limlog := limlog s; alog := alog s |}.
Definition set_readers (s : state) (l : list N) : state :=
  {| cur := cur s; cur_pol := cur_pol s; lim := lim s; lim_gen := lim_gen s; pmu := pmu s; wr := wr s;
     readers := l; reqs := reqs s; upds := upds s; conns := conns s; retmax := retmax s;
     oplog := oplog s; limlog := limlog s; alog := alog s |}.
Definition set_wr (s : state) (w : wstate) : state :=
  {| cur := cur s; cur_pol := cur_pol s; lim := lim s; lim_gen := lim_gen s; pmu := pmu s; wr := w;
     readers := readers s; reqs := reqs s; upds := upds s; conns := conns s; retmax := retmax s;
     oplog := oplog s; limlog := limlog s; alog := alog s |}.
Definition set_pmu (s : state) (m : option N) : state :=
  {| cur := cur s; cur_pol := cur_pol s; lim := lim s; lim_gen := lim_gen s; pmu := m; wr := wr s;
     readers := readers s; reqs := reqs s; upds := upds s; conns := conns s; retmax := retmax s;
     oplog := oplog s; limlog := limlog s; alog := alog s |}.
Definition set_policy (s : state) (v : N) (p : policy) : state :=
  {| cur := v; cur_pol := p; lim := lim s; lim_gen := lim_gen s; pmu := pmu s; wr := wr s;
     readers := readers s; reqs := reqs s; upds := upds s; conns := conns s; retmax := retmax s;
     oplog := oplog s; limlog := limlog s; alog := alog s |}.
Definition set_lim (s : state) (l : option N) (g : N) : state :=
  {| cur := cur s; cur_pol := cur_pol s; lim := l; lim_gen := g; pmu := pmu s; wr := wr s;
     readers := readers s; reqs := reqs s; upds := upds s; conns := conns s; retmax := retmax s;
     oplog := oplog s; limlog := limlog s; alog := alog s |}.
Definition set_conns (s : state) (l : list N) : state :=
  {| cur := cur s; cur_pol := cur_pol s; lim := lim s; lim_gen := lim_gen s; pmu := pmu s; wr := wr s;
     readers := readers s; reqs := reqs s; upds := upds s; conns := l; retmax := retmax s;
     oplog := oplog s; limlog := limlog s; alog := alog s |}.
Definition set_retmax (s : state) (v : N) : state :=
  {| cur := cur s; cur_pol := cur_pol s; lim := lim s; lim_gen := lim_gen s; pmu := pmu s; wr := wr s;
     readers := readers s; reqs := reqs s; upds := upds s; conns := conns s; retmax := v;
     oplog := oplog s; limlog := limlog s; alog := alog s |}.
Definition add_op (s : state) (e : N * N * bool) : state :=
  {| cur := cur s; cur_pol := cur_pol s; lim := lim s; lim_gen := lim_gen s; pmu := pmu s; wr := wr s;
     readers := readers s; reqs := reqs s; upds := upds s; conns := conns s; retmax := retmax s;
     oplog := e :: oplog s; limlog := limlog s; alog := alog s |}.
Definition add_limlog (s : state) (e : N * N * option N) : state :=
  {| cur := cur s; cur_pol := cur_pol s; lim := lim s; lim_gen := lim_gen s; pmu := pmu s; wr := wr s;
     readers := readers s; reqs := reqs s; upds := upds s; conns := conns s; retmax := retmax s;
     oplog := oplog s; limlog := e :: limlog s; alog := alog s |}.
Definition add_access (s : state) (a : access) : state :=
  {| cur := cur s; cur_pol := cur_pol s; lim := lim s; lim_gen := lim_gen s; pmu := pmu s; wr := wr s;
     readers := readers s; reqs := reqs s; upds := upds s; conns := conns s; retmax := retmax s;
     oplog := oplog s; limlog := limlog s; alog := a :: alog s |}.

Definition with_pc (q : req) (pc : rpc) : req :=
  {| r_conn := r_conn q; r_pc := pc; r_h := r_h q; r_arr_ret := r_arr_ret q; r_lim := r_lim q;
     r_limgen := r_limgen q; r_en := r_en q; r_enver := r_enver q; r_checked := r_checked q;
     r_adm := r_adm q; r_snap := r_snap q; r_snap_ro := r_snap_ro q; r_drain := r_drain q |}.
Definition with_h (q : req) (h : hst) : req :=
  {| r_conn := r_conn q; r_pc := r_pc q; r_h := h; r_arr_ret := r_arr_ret q; r_lim := r_lim q;
     r_limgen := r_limgen q; r_en := r_en q; r_enver := r_enver q; r_checked := r_checked q;
     r_adm := r_adm q; r_snap := r_snap q; r_snap_ro := r_snap_ro q; r_drain := r_drain q |}.
Definition with_limread (q : req) (l : option N) (g : N) : req :=
  {| r_conn := r_conn q; r_pc := RLimRead; r_h := r_h q; r_arr_ret := r_arr_ret q; r_lim := l;
     r_limgen := g; r_en := r_en q; r_enver := r_enver q; r_checked := r_checked q;
     r_adm := r_adm q; r_snap := r_snap q; r_snap_ro := r_snap_ro q; r_drain := r_drain q |}.
Definition with_enread (q : req) (e : bool) (v : N) : req :=
  {| r_conn := r_conn q; r_pc := REnRead; r_h := r_h q; r_arr_ret := r_arr_ret q; r_lim := r_lim q;
     r_limgen := r_limgen q; r_en := e; r_enver := v; r_checked := r_checked q;
     r_adm := r_adm q; r_snap := r_snap q; r_snap_ro := r_snap_ro q; r_drain := r_drain q |}.
Definition with_rate (q : req) (pc : rpc) (chk : bool) : req :=
  {| r_conn := r_conn q; r_pc := pc; r_h := r_h q; r_arr_ret := r_arr_ret q; r_lim := r_lim q;
     r_limgen := r_limgen q; r_en := r_en q; r_enver := r_enver q; r_checked := chk;
     r_adm := r_adm q; r_snap := r_snap q; r_snap_ro := r_snap_ro q; r_drain := r_drain q |}.
Definition with_try (q : req) (pc : rpc) (adm : N) (dr : bool) : req :=
  {| r_conn := r_conn q; r_pc := pc; r_h := r_h q; r_arr_ret := r_arr_ret q; r_lim := r_lim q;
     r_limgen := r_limgen q; r_en := r_en q; r_enver := r_enver q; r_checked := r_checked q;
     r_adm := adm; r_snap := r_snap q; r_snap_ro := r_snap_ro q; r_drain := dr |}.
Definition with_snap (q : req) (v : N) (ro : bool) : req :=
  {| r_conn := r_conn q; r_pc := RSnapped; r_h := r_h q; r_arr_ret := r_arr_ret q; r_lim := r_lim q;
     r_limgen := r_limgen q; r_en := r_en q; r_enver := r_enver q; r_checked := r_checked q;
     r_adm := r_adm q; r_snap := v; r_snap_ro := ro; r_drain := r_drain q |}.
Definition new_req (c : option N) (ret : N) : req :=
  {| r_conn := c; r_pc := match c with Some _ => RArrived | None => RCalling end; r_h := HNone;
     r_arr_ret := ret; r_lim := None; r_limgen := 0; r_en := false; r_enver := 0; r_checked := false;
     r_adm := 0; r_snap := 0; r_snap_ro := false; r_drain := false |}.

Definition with_upc (q : upd) (pc : upc) : upd :=
  {| u_pol := u_pol q; u_pc := pc; u_ver := u_ver q; u_lim := u_lim q |}.
Definition with_uver (q : upd) (v : N) : upd :=
  {| u_pol := u_pol q; u_pc := UStored; u_ver := v; u_lim := u_lim q |}.
Definition with_ulim (q : upd) (l : option N) : upd :=
  {| u_pol := u_pol q; u_pc := USwapped; u_ver := u_ver q; u_lim := l |}.

Definition rpc_eqb (a b : rpc) : bool :=
  match a, b with
  | RArrived, RArrived | RLimRead, RLimRead | REnRead, REnRead | RLimited, RLimited | RCalling, RCalling
  | RJuke, RJuke | RLocked, RLocked | RSnapped, RSnapped | RAuthDenied, RAuthDenied | RRunning, RRunning
  | RSent, RSent | RDone, RDone => true
  | _, _ => false
  end.

Definition remove_r (r : N) (l : list N) : list N := filter (fun x => negb (x =? r)) l.
Definition mem (x : N) (l : list N) : bool := existsb (N.eqb x) l.

(* locks a thread holds, read off the lock state (the n.mu critical sections are single steps and add
   their own entry) *)
Definition held (s : state) (t : tid) : list (lockid * lmode) :=
  match t with
  | TReq r => if mem r (readers s) then [(LkRW, MR)] else []
  | TUpd u => (match pmu s with Some v => if v =? u then [(LkPolicyMu, MW)] else [] | None => [] end) ++
              (match wr s with WHolding v => if v =? u then [(LkRW, MW)] else [] | _ => [] end)
  end.

(* options.go: a nil RateLimitConfig is replaced by DefaultRateLimiterConfig() first (as in New), so
   "if EnableRateLimiting && RateLimitConfig != nil { rateLimiter = NewRateLimiter(cfg) } else if !EnableRateLimiting
   { rateLimiter = nil }" always takes one of the two branches: an enabling update builds a NEW limiter (fresh
   buckets), a disabling one removes it.  p_cfg = None stands for the default configuration. *)
Definition swap_lim (p : policy) (v : N) (old : option N) : option N :=
  if p_enable p then Some v else None.

Definition draining (s : state) : bool := match wr s with WNone => false | _ => true end.

Definition step (s : state) (l : label) : option state :=
  match l with
  | ConnOpen c => if mem c (conns s) then None else Some (set_conns s (c :: conns s))
  | Arrive r c =>
      match reqs s r with
      | Some _ => None
      | None =>
        match c with
        | Some k => if mem k (conns s) then Some (set_req s r (new_req c (retmax s))) else None
        | None => Some (set_req s r (new_req c (retmax s)))
        end
      end
  | LimRead r =>
      match reqs s r with
      | Some q => if rpc_eqb (r_pc q) RArrived
                  then Some (add_access (set_req s r (with_limread q (lim s) (lim_gen s)))
                               {| a_t := TReq r; a_write := false; a_locks := held s (TReq r) ++ [(LkNmu, MR)] |})
                  else None
      | None => None
      end
  | EnRead r =>
      match reqs s r with
      | Some q => if rpc_eqb (r_pc q) RLimRead && match r_lim q with Some _ => true | None => false end
                  then Some (set_req s r (with_enread q (p_enable (cur_pol s)) (cur s)))
                  else None
      | None => None
      end
  | Rate r allow =>
      match reqs s r with
      | Some q =>
          let limited := match r_lim q with Some _ => r_en q | None => false end in
          if (rpc_eqb (r_pc q) REnRead || (rpc_eqb (r_pc q) RLimRead && match r_lim q with None => true | _ => false end))
          then if limited
               then Some (set_req s r (with_rate q (if allow then RCalling else RLimited) true))
               else if allow then Some (set_req s r (with_rate q RCalling false)) else None
          else None
      | None => None
      end
  | TryRLock r =>
      match reqs s r with
      | Some q => if rpc_eqb (r_pc q) RCalling
                  then if draining s
                       then Some (set_req s r (with_try q RJuke (r_adm q) true))
                       else Some (set_readers (set_req s r (with_try q RLocked (cur s) false)) (r :: readers s))
                  else None
      | None => None
      end
  | Snap r =>
      match reqs s r with
      | Some q => if rpc_eqb (r_pc q) RLocked
                  then Some (set_req s r (with_snap q (cur s) (p_ro (cur_pol s)))) else None
      | None => None
      end
  | Auth r ok =>
      match reqs s r with
      | Some q => if rpc_eqb (r_pc q) RSnapped
                  then if ok then Some (set_req s r (with_h (with_pc q RRunning) HWait))
                       else Some (set_readers (set_req s r (with_pc q RAuthDenied)) (remove_r r (readers s)))
                  else None
      | None => None
      end
  | Op r =>
      match reqs s r with
      | Some q => if rpc_eqb (r_pc q) RRunning then Some (add_op s (r, cur s, p_ro (cur_pol s))) else None
      | None => None
      end
  | OpLim r =>
      match reqs s r with
      | Some q => if rpc_eqb (r_pc q) RRunning
                  then Some (add_access (add_limlog s (r, lim_gen s, lim s))
                               {| a_t := TReq r; a_write := false; a_locks := held s (TReq r) |})
                  else None
      | None => None
      end
  | Finish r =>
      match reqs s r with
      | Some q => if rpc_eqb (r_pc q) RRunning then Some (set_req s r (with_pc q RSent)) else None
      | None => None
      end
  | RUnlock r =>
      match reqs s r with
      | Some q => if rpc_eqb (r_pc q) RSent
                  then Some (set_readers (set_req s r (with_pc q RDone)) (remove_r r (readers s))) else None
      | None => None
      end
  | HReturn r =>
      match reqs s r with
      | Some q => match r_h q with
                  | HWait => if rpc_eqb (r_pc q) RSent || rpc_eqb (r_pc q) RDone
                             then Some (set_req s r (with_h q HReply)) else None
                  | _ => None
                  end
      | None => None
      end
  | HTimeoutL r =>
      match reqs s r with
      | Some q => match r_h q with HWait => Some (set_req s r (with_h q HTimeout)) | _ => None end
      | None => None
      end
  | UCall u p =>
      match upds s u with
      | Some _ => None
      | None => Some (set_upd s u {| u_pol := p; u_pc := UCalled; u_ver := 0; u_lim := None |})
      end
  | UMu u =>
      match upds s u with
      | Some q => match u_pc q, pmu s with
                  | UCalled, None => Some (set_pmu (set_upd s u (with_upc q UHasMu)) (Some u))
                  | _, _ => None
                  end
      | None => None
      end
  | ULock u =>
      match upds s u with
      | Some q => match u_pc q with
                  | UHasMu =>
                      if negb (p_squash (cur_pol s) =? p_squash (u_pol q))
                      then Some (set_pmu (set_upd s u (with_upc q USquashErr)) None)
                      else match wr s with
                           | WNone => Some (set_wr (set_upd s u (with_upc q UPending)) (WPending u))
                           | _ => None
                           end
                  | _ => None
                  end
      | None => None
      end
  | UAcquire u =>
      match upds s u with
      | Some q => match u_pc q, readers s with
                  | UPending, [] => Some (set_wr (set_upd s u (with_upc q UHolding)) (WHolding u))
                  | _, _ => None
                  end
      | None => None
      end
  | UStore u =>
      match upds s u with
      | Some q => match u_pc q with
                  | UHolding => Some (set_policy (set_upd s u (with_uver q (cur s + 1))) (cur s + 1) (u_pol q))
                  | _ => None
                  end
      | None => None
      end
  | USwap u =>
      match upds s u with
      | Some q => match u_pc q with
                  | UStored =>
                      let l' := swap_lim (u_pol q) (u_ver q) (lim s) in
                      Some (add_access (set_lim (set_upd s u (with_ulim q l')) l' (u_ver q))
                              {| a_t := TUpd u; a_write := true; a_locks := held s (TUpd u) ++ [(LkNmu, MW)] |})
                  | _ => None
                  end
      | None => None
      end
  | UUnlock u =>
      match upds s u with
      | Some q => match u_pc q with
                  | USwapped => Some (set_wr (set_upd s u (with_upc q UUnlocked)) WNone)
                  | _ => None
                  end
      | None => None
      end
  | URet u =>
      match upds s u with
      | Some q => match u_pc q with
                  | UUnlocked => Some (set_retmax (set_pmu (set_upd s u (with_upc q UReturned)) None)
                                         (N.max (retmax s) (u_ver q)))
                  | _ => None
                  end
      | None => None
      end
  | Probe b => if Bool.eqb b (draining s) then Some s else None
  end.

Fixpoint run (s : state) (tr : list label) : option state :=
  match tr with
  | [] => Some s
  | l :: r => match step s l with Some s' => run s' r | None => None end
  end.

(* the next step of an update in program order (None when it has returned) *)
Definition unext (u : N) (q : upd) : option label :=
  match u_pc q with
  | UCalled => Some (UMu u) | UHasMu => Some (ULock u) | UPending => Some (UAcquire u)
  | UHolding => Some (UStore u) | UStored => Some (USwap u) | USwapped => Some (UUnlock u)
  | UUnlocked => Some (URet u) | USquashErr | UReturned => None
  end.
Definition enabled (s : state) (l : label) : bool := match step s l with Some _ => true | None => false end.

(* a request whose worker goroutine still owns the read lock ("is executing") *)
Definition executing (q : req) : bool :=
  match r_pc q with RLocked | RSnapped | RRunning | RSent => true | _ => false end.
(* a request that got past admission *)
Definition admitted (q : req) : bool :=
  match r_pc q with RLocked | RSnapped | RAuthDenied | RRunning | RSent | RDone => true | _ => false end.

(* lockset discipline on the access log: two accesses by different threads, one of them a write, share a lock
   that at least one of them holds exclusively *)
Definition lockid_eqb (a b : lockid) : bool :=
  match a, b with LkPolicyMu, LkPolicyMu | LkRW, LkRW | LkNmu, LkNmu => true | _, _ => false end.
Definition excl (m1 m2 : lmode) : bool := match m1, m2 with MR, MR => false | _, _ => true end.
Definition common_lock (a b : access) : bool :=
  existsb (fun x => existsb (fun y => lockid_eqb (fst x) (fst y) && excl (snd x) (snd y)) (a_locks b)) (a_locks a).
Definition tid_eqb (a b : tid) : bool :=
  match a, b with TReq x, TReq y | TUpd x, TUpd y => x =? y | _, _ => false end.
Definition conflict (a b : access) : bool := negb (tid_eqb (a_t a) (a_t b)) && (a_write a || a_write b).
