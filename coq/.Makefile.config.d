Gen/Facts.vo Gen/Facts.glob Gen/Facts.v.beautified Gen/Facts.required_vo: Gen/Facts.v 
Gen/Facts.vio: Gen/Facts.v 
Gen/Facts.vos Gen/Facts.vok Gen/Facts.required_vos: Gen/Facts.v 
Corr/Common.vo Corr/Common.glob Corr/Common.v.beautified Corr/Common.required_vo: Corr/Common.v 
Corr/Common.vio: Corr/Common.v 
Corr/Common.vos Corr/Common.vok Corr/Common.required_vos: Corr/Common.v 
Model/Config.vo Model/Config.glob Model/Config.v.beautified Model/Config.required_vo: Model/Config.v Gen/Facts.vo
Model/Config.vio: Model/Config.v Gen/Facts.vio
Model/Config.vos Model/Config.vok Model/Config.required_vos: Model/Config.v Gen/Facts.vos
Proofs/ConfigProofs.vo Proofs/ConfigProofs.glob Proofs/ConfigProofs.v.beautified Proofs/ConfigProofs.required_vo: Proofs/ConfigProofs.v Gen/Facts.vo Model/Config.vo
Proofs/ConfigProofs.vio: Proofs/ConfigProofs.v Gen/Facts.vio Model/Config.vio
Proofs/ConfigProofs.vos Proofs/ConfigProofs.vok Proofs/ConfigProofs.required_vos: Proofs/ConfigProofs.v Gen/Facts.vos Model/Config.vos
Properties/C24.vo Properties/C24.glob Properties/C24.v.beautified Properties/C24.required_vo: Properties/C24.v Gen/Facts.vo Model/Config.vo Proofs/ConfigProofs.vo
Properties/C24.vio: Properties/C24.v Gen/Facts.vio Model/Config.vio Proofs/ConfigProofs.vio
Properties/C24.vos Properties/C24.vok Properties/C24.required_vos: Properties/C24.v Gen/Facts.vos Model/Config.vos Proofs/ConfigProofs.vos
Corr/C24.vo Corr/C24.glob Corr/C24.v.beautified Corr/C24.required_vo: Corr/C24.v Gen/Facts.vo Model/Config.vo Corr/Common.vo
Corr/C24.vio: Corr/C24.v Gen/Facts.vio Model/Config.vio Corr/Common.vio
Corr/C24.vos Corr/C24.vok Corr/C24.required_vos: Corr/C24.v Gen/Facts.vos Model/Config.vos Corr/Common.vos
Model/Framing.vo Model/Framing.glob Model/Framing.v.beautified Model/Framing.required_vo: Model/Framing.v Gen/Facts.vo
Model/Framing.vio: Model/Framing.v Gen/Facts.vio
Model/Framing.vos Model/Framing.vok Model/Framing.required_vos: Model/Framing.v Gen/Facts.vos
Properties/C28.vo Properties/C28.glob Properties/C28.v.beautified Properties/C28.required_vo: Properties/C28.v Gen/Facts.vo Model/Framing.vo
Properties/C28.vio: Properties/C28.v Gen/Facts.vio Model/Framing.vio
Properties/C28.vos Properties/C28.vok Properties/C28.required_vos: Properties/C28.v Gen/Facts.vos Model/Framing.vos
Corr/C28.vo Corr/C28.glob Corr/C28.v.beautified Corr/C28.required_vo: Corr/C28.v Gen/Facts.vo Model/Framing.vo Corr/Common.vo
Corr/C28.vio: Corr/C28.v Gen/Facts.vio Model/Framing.vio Corr/Common.vio
Corr/C28.vos Corr/C28.vok Corr/C28.required_vos: Corr/C28.v Gen/Facts.vos Model/Framing.vos Corr/Common.vos
Model/Tls.vo Model/Tls.glob Model/Tls.v.beautified Model/Tls.required_vo: Model/Tls.v Gen/Facts.vo
Model/Tls.vio: Model/Tls.v Gen/Facts.vio
Model/Tls.vos Model/Tls.vok Model/Tls.required_vos: Model/Tls.v Gen/Facts.vos
Proofs/TlsProofs.vo Proofs/TlsProofs.glob Proofs/TlsProofs.v.beautified Proofs/TlsProofs.required_vo: Proofs/TlsProofs.v Gen/Facts.vo Model/Tls.vo
Proofs/TlsProofs.vio: Proofs/TlsProofs.v Gen/Facts.vio Model/Tls.vio
Proofs/TlsProofs.vos Proofs/TlsProofs.vok Proofs/TlsProofs.required_vos: Proofs/TlsProofs.v Gen/Facts.vos Model/Tls.vos
Properties/C30.vo Properties/C30.glob Properties/C30.v.beautified Properties/C30.required_vo: Properties/C30.v Gen/Facts.vo Model/Tls.vo Proofs/TlsProofs.vo
Properties/C30.vio: Properties/C30.v Gen/Facts.vio Model/Tls.vio Proofs/TlsProofs.vio
Properties/C30.vos Properties/C30.vok Properties/C30.required_vos: Properties/C30.v Gen/Facts.vos Model/Tls.vos Proofs/TlsProofs.vos
Corr/C30.vo Corr/C30.glob Corr/C30.v.beautified Corr/C30.required_vo: Corr/C30.v Gen/Facts.vo Model/Tls.vo Corr/Common.vo
Corr/C30.vio: Corr/C30.v Gen/Facts.vio Model/Tls.vio Corr/Common.vio
Corr/C30.vos Corr/C30.vok Corr/C30.required_vos: Corr/C30.v Gen/Facts.vos Model/Tls.vos Corr/Common.vos
Corr/C30rot.vo Corr/C30rot.glob Corr/C30rot.v.beautified Corr/C30rot.required_vo: Corr/C30rot.v Gen/Facts.vo Model/Tls.vo Corr/Common.vo
Corr/C30rot.vio: Corr/C30rot.v Gen/Facts.vio Model/Tls.vio Corr/Common.vio
Corr/C30rot.vos Corr/C30rot.vok Corr/C30rot.required_vos: Corr/C30rot.v Gen/Facts.vos Model/Tls.vos Corr/Common.vos
