#!/bin/sh
# dev helper: build model + driver, run stream $1 (n=$2, seed=$3), list mismatching (shard case step code)
P=${1:-SRV}; N=${2:-50}; S=${3:-1}
export GOFLAGS=-mod=mod GOPROXY=off GOSUMDB=off GOTOOLCHAIN=local
cd /verif/coq && make Corr/$P.vo 2>&1 | grep -v "^COQ" | tail -5
cd /verif/harness && CGO_ENABLED=0 go build -tags verif -overlay ../build/overlay.json -o ../build/drive_nfs ./cmd/drive_nfs || exit 1
rm -rf ../build/cases/$P; ../build/drive_nfs -prop $P -seed $S -n $N -out ../build/cases/$P 2>/dev/null
cd ../build/cases/$P && ls cases_*.v | xargs -P 14 -I{} sh -c 'coqc -R /verif/coq Verif {} > {}.out 2>&1'
for f in cases_*.v.out; do echo "$f: $(tr -d '\n' < $f | sed 's/  */ /g' | cut -c1-400)"; done
