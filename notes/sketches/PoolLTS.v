From Coq Require Import List Arith Bool Lia.
Import ListNotations.

(* Worker pool of worker_pool.go as a labelled transition system.
   fixed = false : the code as it is;  fixed = true : Stop drains the queue and closes result channels *)
Inductive wst := WIdle | WExec (t : nat) | WExit.
Inductive sst := SWaitRes | SGot | SRejected | SNotExecuted (* told: run it yourself *).

Record pool := { running : bool; cancelled : bool; closed : bool; cap : nat; queue : list nat;
                 workers : list wst; subs : list (nat * sst); stop_pc : nat; executed : list nat }.

Definition init (nworkers : nat) : pool :=
  {| running := true; cancelled := false; closed := false; cap := 2 * nworkers; queue := [];
     workers := repeat WIdle nworkers; subs := []; stop_pc := 0; executed := [] |}.

Inductive label := Submit (t : nat) | Take (w : nat) | ExitCtx (w : nat) | ExitClosed (w : nat)
                 | Finish (w : nat) | Stop1 | Stop2 | Stop3.

Fixpoint set_nth {A} (n : nat) (x : A) (l : list A) : list A :=
  match l, n with [], _ => [] | _ :: r, O => x :: r | y :: r, S k => y :: set_nth k x r end.
Fixpoint set_sub (t : nat) (s : sst) (l : list (nat * sst)) : list (nat * sst) :=
  match l with [] => [] | (u, x) :: r => if Nat.eqb u t then (u, s) :: r else (u, x) :: set_sub t s r end.
Definition all_exited (ws : list wst) : bool := forallb (fun w => match w with WExit => true | _ => false end) ws.

Definition step (fixed : bool) (s : pool) (l : label) : option pool :=
  match l with
  | Submit t =>
    if existsb (fun e => Nat.eqb (fst e) t) (subs s) then None else
    if running s && negb (closed s) && (length (queue s) <? cap s)
    then Some {| running := running s; cancelled := cancelled s; closed := closed s; cap := cap s;
                 queue := queue s ++ [t]; workers := workers s; subs := (t, SWaitRes) :: subs s;
                 stop_pc := stop_pc s; executed := executed s |}
    else Some {| running := running s; cancelled := cancelled s; closed := closed s; cap := cap s;
                 queue := queue s; workers := workers s; subs := (t, SRejected) :: subs s;
                 stop_pc := stop_pc s; executed := executed s |}
  | Take w =>
    match nth_error (workers s) w, queue s with
    | Some WIdle, t :: q =>
      Some {| running := running s; cancelled := cancelled s; closed := closed s; cap := cap s;
              queue := q; workers := set_nth w (WExec t) (workers s); subs := subs s;
              stop_pc := stop_pc s; executed := executed s |}
    | _, _ => None
    end
  | ExitCtx w =>
    match nth_error (workers s) w with
    | Some WIdle => if cancelled s then
      Some {| running := running s; cancelled := cancelled s; closed := closed s; cap := cap s;
              queue := queue s; workers := set_nth w WExit (workers s); subs := subs s;
              stop_pc := stop_pc s; executed := executed s |} else None
    | _ => None
    end
  | ExitClosed w =>
    match nth_error (workers s) w, queue s with
    | Some WIdle, [] => if closed s then
      Some {| running := running s; cancelled := cancelled s; closed := closed s; cap := cap s;
              queue := queue s; workers := set_nth w WExit (workers s); subs := subs s;
              stop_pc := stop_pc s; executed := executed s |} else None
    | _, _ => None
    end
  | Finish w =>
    match nth_error (workers s) w with
    | Some (WExec t) =>
      Some {| running := running s; cancelled := cancelled s; closed := closed s; cap := cap s;
              queue := queue s; workers := set_nth w WIdle (workers s); subs := set_sub t SGot (subs s);
              stop_pc := stop_pc s; executed := t :: executed s |}
    | _ => None
    end
  | Stop1 => if running s && Nat.eqb (stop_pc s) 0 then
      Some {| running := false; cancelled := true; closed := closed s; cap := cap s;
              queue := queue s; workers := workers s; subs := subs s; stop_pc := 1; executed := executed s |} else None
  | Stop2 => if Nat.eqb (stop_pc s) 1 then
      Some {| running := running s; cancelled := cancelled s; closed := true; cap := cap s;
              queue := queue s; workers := workers s; subs := subs s; stop_pc := 2; executed := executed s |} else None
  | Stop3 => if Nat.eqb (stop_pc s) 2 && all_exited (workers s) then
      Some {| running := running s; cancelled := cancelled s; closed := closed s; cap := cap s;
              queue := if fixed then [] else queue s; workers := workers s;
              subs := if fixed then fold_left (fun acc t => set_sub t SNotExecuted acc) (queue s) (subs s) else subs s;
              stop_pc := 3; executed := executed s |} else None
  end.

Fixpoint run (fixed : bool) (s : pool) (tr : list label) : option pool :=
  match tr with [] => Some s | l :: r => match step fixed s l with Some s' => run fixed s' r | None => None end end.

Definition executing (s : pool) : nat := length (filter (fun w => match w with WExec _ => true | _ => false end) (workers s)).

(* internal (non-submit) labels enabled in s, over worker indices < number of workers *)
Definition internal_labels (s : pool) : list label :=
  flat_map (fun w => [Take w; ExitCtx w; ExitClosed w; Finish w]) (seq 0 (length (workers s))) ++ [Stop2; Stop3].
Definition quiescent (fixed : bool) (s : pool) : bool :=
  forallb (fun l => match step fixed s l with None => true | Some _ => false end) (internal_labels s).
Definition blocked (s : pool) : list nat :=
  map fst (filter (fun e => match snd e with SWaitRes => true | _ => false end) (subs s)).

(* the refuting schedule: one worker busy, one task queued, Stop *)
Definition witness := [Submit 0; Take 0; Submit 1; Stop1; Stop2; Finish 0; ExitCtx 0; Stop3].
Example C20_resolved_refuted :
  match run false (init 1) witness with
  | Some s => quiescent false s = true /\ blocked s = [1]
  | None => False end.
Proof. vm_compute. split; reflexivity. Qed.
Example C20_resolved_fixed_same_schedule :
  match run true (init 1) witness with
  | Some s => quiescent true s = true /\ blocked s = [] /\ In (1, SNotExecuted) (subs s)
  | None => False end.
Proof. vm_compute. repeat split; auto. Qed.

(* bounded concurrency: the number of executing workers never exceeds the pool size *)
Lemma filter_len_le {A} (f : A -> bool) l : length (filter f l) <= length l.
Proof. induction l as [|a l IH]; cbn; [lia|]. destruct (f a); cbn; lia. Qed.

Lemma set_nth_length {A} n (x : A) l : length (set_nth n x l) = length l.
Proof. revert n; induction l as [|y r IH]; intros [|n]; cbn; auto. Qed.

Lemma step_workers_len fixed s l s' : step fixed s l = Some s' -> length (workers s') = length (workers s).
Proof.
  destruct l; cbn; intros H;
  repeat match type of H with
  | (if ?c then _ else _) = _ => destruct c
  | match ?x with _ => _ end = _ => destruct x
  end; try discriminate; inversion H; subst; cbn; rewrite ?set_nth_length; reflexivity.
Qed.

Theorem C20_bounded : forall fixed n tr s, run fixed (init n) tr = Some s -> executing s <= n.
Proof.
  intros fixed n tr s H.
  assert (L : length (workers s) = n).
  { assert (G : forall tr s0, run fixed s0 tr = Some s -> length (workers s) = length (workers s0)).
    { induction tr0 as [|l r IH]; cbn; intros s0 E; [inversion E; reflexivity|].
      destruct (step fixed s0 l) as [s1|] eqn:Es; [|discriminate].
      rewrite (IH _ E). eapply step_workers_len; eauto. }
    rewrite (G _ _ H). cbn. apply repeat_length. }
  unfold executing. rewrite <- L. apply filter_len_le.
Qed.
Print Assumptions C20_bounded.
