From Coq Require Import List QArith Qminmax Lqa Bool Lia.
Import ListNotations.
Open Scope Q_scope.

Record tb := { tokens : Q; maxT : Q; rate : Q; last : Q }.
Definition mk (r b t0 : Q) : tb := {| tokens := b; maxT := b; rate := r; last := t0 |}.
Definition refill (b : tb) (now : Q) : Q := Qmin (maxT b) (tokens b + (now - last b) * rate b).
Definition allow (b : tb) (now : Q) : bool * tb :=
  let t := refill b now in
  if Qle_bool 1 t then (true, {| tokens := t - 1; maxT := maxT b; rate := rate b; last := now |})
  else (false, {| tokens := t; maxT := maxT b; rate := rate b; last := now |}).

(* admitted count and final bucket over a timing sequence *)
Fixpoint run (b : tb) (ts : list Q) : nat * tb :=
  match ts with
  | [] => (O, b)
  | t :: r => let '(a, b') := allow b t in
              let '(n, b'') := run b' r in ((if a then S n else n), b'')
  end.
Fixpoint sorted_from (t0 : Q) (ts : list Q) : Prop :=
  match ts with [] => True | t :: r => t0 <= t /\ sorted_from t r end.
Definition qn (n : nat) : Q := inject_Z (Z.of_nat n).

Lemma qn_S n : qn (S n) == qn n + 1.
Proof. unfold qn. rewrite Nat2Z.inj_succ. unfold Z.succ. rewrite inject_Z_plus. reflexivity. Qed.

Lemma last_cons (A : Type) : forall (r : list A) (x d : A), List.last (x :: r) d = List.last r x.
Proof.
  induction r as [|y r' IH]; intros x d; [reflexivity|].
  change (List.last (x :: y :: r') d) with (List.last (y :: r') d).
  rewrite (IH y d), (IH y x). reflexivity.
Qed.
Arguments last_cons {A}.

Definition wf (b : tb) : Prop := 0 <= rate b /\ 0 <= maxT b /\ 0 <= tokens b.

Lemma allow_step b now a b' :
  allow b now = (a, b') -> wf b -> last b <= now ->
  wf b' /\ rate b' = rate b /\ maxT b' = maxT b /\ last b' = now /\
  (if a then 1 else 0) + tokens b' <= tokens b + (now - last b) * rate b.
Proof.
  unfold allow, refill, wf. intros H (Hr & Hm & Ht) Hl.
  assert (Hprod : 0 <= (now - last b) * rate b).
  { apply Qmult_le_0_compat; lra. }
  pose proof (Q.le_min_r (maxT b) (tokens b + (now - last b) * rate b)) as Hmin.
  assert (Hmin0 : 0 <= Qmin (maxT b) (tokens b + (now - last b) * rate b)).
  { apply Q.min_glb; lra. }
  destruct (Qle_bool 1 _) eqn:E; inversion H; subst; cbn [tokens maxT rate last].
  - apply Qle_bool_iff in E. repeat split; try reflexivity; try lra.
  - repeat split; try reflexivity; try lra.
Qed.

Lemma run_bound : forall ts b n b',
  run b ts = (n, b') -> wf b -> sorted_from (last b) ts ->
  qn n + tokens b' <= tokens b + (List.last ts (last b) - last b) * rate b /\ rate b' = rate b /\ wf b'.
Proof.
  induction ts as [|t r IH]; intros b n b' H Hwf Hs.
  - cbn in H. inversion H; subst. cbn. split; [|split; [reflexivity|exact Hwf]]. unfold qn. cbn. change (inject_Z 0) with 0. ring_simplify. apply Qle_refl.
  - cbn in H. destruct (allow b t) as [a b1] eqn:Ea. destruct (run b1 r) as [n1 b2] eqn:Er.
    inversion H; subst. cbn in Hs. destruct Hs as [Hle Hs].
    destruct (allow_step _ _ _ _ Ea Hwf Hle) as (Hwf1 & Hr1 & Hm1 & Hl1 & Hstep).
    rewrite <- Hl1 in Hs.
    destruct (IH _ _ _ Er Hwf1 Hs) as (Hb & Hr2 & Hwf2).
    assert (Hlast : List.last (t :: r) (last b) = List.last r (last b1)) by (rewrite Hl1; apply last_cons).
    rewrite Hlast, Hl1. rewrite Hr1, Hl1 in Hb. split; [|split; [congruence|exact Hwf2]].
    destruct a.
    + rewrite qn_S. lra.
    + lra.
Qed.

Theorem C18_bound : forall r b t0 ts, 0 <= r -> 0 <= b -> sorted_from t0 ts ->
  qn (fst (run (mk r b t0) ts)) <= b + r * (List.last ts t0 - t0).
Proof.
  intros r b t0 ts Hr Hb Hs.
  destruct (run (mk r b t0) ts) as [n b'] eqn:E. cbn [fst].
  destruct (run_bound ts (mk r b t0) n b' E) as (H & _ & (_ & _ & Ht)).
  - unfold wf, mk; cbn. repeat split; lra.
  - exact Hs.
  - cbn in H. lra.
Qed.
Print Assumptions C18_bound.
