#!/bin/sh
# usage: dbg.sh <cases dir> <shard> <case idx in shard> <step>   -- prints impl text and the model's view
d=$1; sh=$2; ci=$3; st=$4
python3 - "$d" "$sh" "$ci" "$st" <<'PY'
import json,sys
d,sh,ci,st=sys.argv[1],int(sys.argv[2]),int(sys.argv[3]),int(sys.argv[4])
stats=json.load(open(d+'/stats.json'))
cases=[json.loads(l) for l in open(d+'/cases.jsonl')]
c=cases[sh*stats['shard_size']+ci]
lines=c['text'].split('\n')
print(lines[0])
for l in lines[1:st+2]: print(l)
PY
sed -e 's/^Definition R := .*//' -e 's/^Print R.//' $d/cases_$sh.v > $d/dbg.v
echo "Definition D := Eval vm_compute in dbg (nth $ci cases (Build_case (Build_cfg 0 false 0 0 0 false 0 false 0 0 0) 0%Z [] [])) $st. Print D." >> $d/dbg.v
(cd $d && coqc -R /verif/coq Verif dbg.v 2>&1 | tail -60)
