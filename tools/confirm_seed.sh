#!/bin/sh
# tools/confirm_seed.sh <worktree> <property> - confirms a sub-agent's seeded change in its scratch worktree and, if
# confirmed, files it as /verif/seeded/<property>-<n>/ (patch.diff, seed_demo_test.go, NOTES.md, meta.json skeleton).
W=$1; P=$2
export GOFLAGS=-mod=mod GOPROXY=off GOSUMDB=off GOTOOLCHAIN=local
cd $W || exit 2
[ -f patch.diff ] && [ -f seed_demo_test.go ] || { echo "missing deliverables"; exit 2; }
git checkout -q -- . ; git apply patch.diff || { echo "patch does not apply to HEAD"; exit 2; }
go build ./... || { echo "FAIL: does not build"; exit 1; }
go test -vet=off -count=1 -skip TestSeedDemo ./... > /tmp/confirm-$$.txt 2>&1 || { echo "FAIL: suite fails with the change"; tail -5 /tmp/confirm-$$.txt; exit 1; }
echo "suite passes with change: $(grep '^ok' /tmp/confirm-$$.txt)"
if go test -vet=off -count=1 -run TestSeedDemo . > /tmp/confirm-$$.txt 2>&1; then echo "FAIL: demo passes with the change"; exit 1; fi
echo "demo fails with change: $(grep -m1 -E 'seed_demo_test|FAIL' /tmp/confirm-$$.txt | cut -c1-160)"
git checkout -q -- . 
if ! go test -vet=off -count=1 -run TestSeedDemo . > /tmp/confirm-$$.txt 2>&1; then echo "FAIL: demo fails without the change"; tail -5 /tmp/confirm-$$.txt; exit 1; fi
echo "demo passes without change"
git apply patch.diff
n=1; while [ -d /verif/seeded/$P-$n ]; do n=$((n+1)); done
D=/verif/seeded/$P-$n; mkdir -p $D; cp patch.diff seed_demo_test.go NOTES.md $D/ 2>/dev/null
echo "filed as $D"
rm -f /tmp/confirm-$$.txt
