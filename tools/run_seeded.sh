#!/bin/sh
# tools/run_seeded.sh <seeded-id> [quick|thorough]  - runs the property's check against a scratch worktree of /repo
# carrying seeded/<id>/patch.diff (VERIF_REPO mode: /repo itself is not touched, no evidence is written) and
# stores the verdict in seeded/<id>/result-<tier>.txt.  Exit 0 if the change was reported (VIOLATION), 1 if missed.
ID=$1; TIER=${2:-quick}; D=/verif/seeded/$ID; W=/tmp/seedrun-$$
PROPS=$(python3 -c "import json;m=json.load(open('$D/meta.json'));print(' '.join(m.get('checks',[m['property']])))")
# the patches were made against this commit of /repo (later fix: commits may touch the same lines)
BASE=$(python3 -c "import json;print(json.load(open('$D/meta.json')).get('base','4b1fdd8'))")
git -C /repo worktree add -q --detach $W $BASE || exit 2
(cd $W && git apply $D/patch.diff) || { echo "patch does not apply"; git -C /repo worktree remove --force $W; exit 2; }
: > $D/result-$TIER.txt
caught=1
for P in $PROPS; do
  (cd /verif && VERIF_REPO=$W ./check $P $TIER) > $W/out.txt 2>&1
  grep -E "^(VIOLATION|KNOWN-FINDING|# C[0-9]+ )" $W/out.txt >> $D/result-$TIER.txt
  if grep -q "^VIOLATION" $W/out.txt; then caught=0; fi
done
git -C /repo worktree remove --force $W
cat $D/result-$TIER.txt
exit $caught
