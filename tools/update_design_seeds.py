#!/usr/bin/env python3
"""rewrites DESIGN.md section 10.5 from seeded/*/meta.json and result files"""
import subprocess, json, glob, os, re
table = subprocess.run(['/verif/tools/seed_table.py'], capture_output=True, text=True).stdout
metas = [json.load(open(f)) for f in sorted(glob.glob('/verif/seeded/C*-*/meta.json'))]
n = len(metas)
strengthened = [m for m in metas if m.get('strengthened')]
tie_only = [m for m in strengthened if 'first reported' in m['strengthened'] or 'reports it as a broken' in m['strengthened']]
missed = [m for m in strengthened if m not in tie_only]
res = {'concrete': 0, 'noinput': 0, 'none': 0, 'notrun': 0}
for d in sorted(glob.glob('/verif/seeded/C*-*')):
    f = d + '/result-quick.txt'
    if not os.path.exists(f) or not open(f).read().strip():
        res['notrun'] += 1
        continue
    t = open(f).read()
    v = re.findall(r'^VIOLATION .*$', t, flags=re.M)
    if any('no-failing-input-found' not in x for x in v): res['concrete'] += 1
    elif v: res['noinput'] += 1
    else: res['none'] += 1
s = open('/verif/DESIGN.md').read()
i = s.index('### 10.5 Which check catches which change')
j = s.index('### 10.6 Trusted base as built')
new = '''### 10.5 Which check catches which change

**Reverted repairs.** Reverting each `fix:` commit in a scratch worktree (`tools/mutate.sh <stream> <n>
revert:<commit>`) yields a concrete violation (code 2) from the property's own oracle for: C02 (all four cache
fixes), C04 (both attribute fixes, parent-directory fix, LOOKUP fix), C05, C11, C22, C25, C24 (three), C28, C30,
C27 (two), C21, C19, C20, C23, C26 (the `..`-name fix, stream C26x), C29 (generation counters: 33 of 3000 random
histories and all directed schedules); the SETATTR attribute fix (cfc0b38) is caught as a model mismatch by C04
and as a status violation by C02's LOOKUP expectation.

**Independently seeded changes.** Four rounds of fresh sub-agents, each given only the text of one property and
its own scratch worktree of `/repo` (nothing from `/verif`; later rounds were also told what the earlier ones
had changed and asked for a different function, mechanism, configuration or clause), produced %d wrong changes - four per
property, plus ten from a partial fifth round - that compile and keep the existing 1361-test suite green. Each was confirmed by
`tools/confirm_seed.sh` (suite passes with the change, the agent's demonstration test fails with it and passes
without it) and filed under `seeded/<Cxx-n>/` (`patch.diff`, `seed_demo_test.go`, `NOTES.md`, `meta.json`,
`result-quick.txt`). `tools/run_seeded.sh <id>` runs the property's registered check(s) against a scratch
worktree carrying the patch (`VERIF_REPO` mode: own copy of the Coq tree, no evidence written, `/repo`
untouched).

Outcome (quick tier, as committed): %d reported with a concrete replay, %d reported only as a broken tie or
correspondence (`no-failing-input-found`), %d not reported, %d filed but not run. The partial fifth round (ten changes made at
the very end of the session) was run once and left as it came - no strengthening - as a held-out measurement: seven
of the ten are reported with a concrete replay, three are not (C15-5: WRITE whose opaque is longer than its count
allocates the declared length; C17-5: a connection whose last call was rate-limited is never reaped; C19-5: IPv6
clients differing in the last group share a per-IP bucket). Those three mark the next generator extensions (WRITE
argument lengths that disagree, rate limiting combined with idle reaping, IPv6 client addresses in the limiter
streams). %d of the %d were reported as they came; %d were first
missed and %d first reported without an input, and each of those led to a stronger generator, oracle or stream
(last column) - after which the unchanged tree was re-checked to stay quiet. The recurring blind spots were:
(i) effects that only show on a *second look* inside the cache TTL (LOOKUP sandwiches and directory sweeps around
every mutating request), (ii) states the sequential streams never reached (activity after `Unexport`, live TCP
connections across policy or tuning updates, overlapping WRITEs, simultaneous allocations, writer-held and
shutdown-held schedules, timed-out requests), (iii) the difference between the raw credential and the identity
in force (squashing exports), (iv) boundary values of client-chosen numbers and names (2^63 cookies, 0xFFFFFFFD
lengths, multi-byte names, tiny dircounts, record marks split across segments, nil task results, unmapped errno
values), (v) backend conventions other than the primary test backend's (symlink size 0), (vi) the backend changing underneath the server (an external writer), (vii) drivers that died of the very panic, or hung
on the very deadlock, they should have recorded. The share of changes missed at first did not fall from round to
round (5, 11, 11 and 13 of 30): every round of independent changes exposed new blind spots of the generators,
which is the honest measure of how much the sampled side of this machinery covers; the theorems are unaffected by
it, and a change that invalidates a `Cxx_facts` obligation or the model correspondence is reported at least as a
broken tie.

''' % (n, res['concrete'], res['noinput'], res['none'], res['notrun'], n - len(strengthened) - res['notrun'] - res['none'], n - res['notrun'], len(missed), len(tie_only)) + table + '\n\n'
open('/verif/DESIGN.md', 'w').write(s[:i] + new + s[j:])
print(n, res, len(missed), len(tie_only))
