#!/usr/bin/env python3
"""prints the markdown table of seeded changes and what the checks reported (from seeded/*/meta.json, result-*.txt)"""
import json, glob, os, re
rows = []
for d in sorted(glob.glob("/verif/seeded/C*-*")):
    m = json.load(open(d + "/meta.json")) if os.path.exists(d + "/meta.json") else {}
    res = ""
    for t in ("quick", "thorough"):
        f = d + "/result-%s.txt" % t
        if os.path.exists(f):
            txt = open(f).read()
            v = re.findall(r"^VIOLATION property=(\S+) replay=(\S+)(.*)$", txt, flags=re.M)
            if v:
                res = "%s: VIOLATION %s%s" % (t, os.path.basename(v[0][1]), " (no-failing-input-found)" if "no-failing" in v[0][2] else " (concrete replay)")
                break
            res = "%s: not reported" % t
    if not res:
        res = "not run (filed at the end of the session)"
    note = m.get("strengthened", "")
    rows.append("| %s | %s | %s | %s |" % (os.path.basename(d), m.get("change", "?"), res, note))
print("| seeded change | what it does | reported by `./check` | machinery change it prompted |\n|---|---|---|---|")
print("\n".join(rows))
