#!/bin/sh
# tools/file_seed.sh <worktree> <Cxx> "<change>" "<needs to manifest>": confirm a sub-agent's seeded change, file it with meta.json,
# remove the scratch worktree
W=$1; P=$2; CH=$3; NEEDS=$4
OUT=$(/verif/tools/confirm_seed.sh $W $P 2>&1); echo "$OUT" | tail -4
D=$(echo "$OUT" | sed -n 's/^filed as //p')
[ -n "$D" ] || { echo "NOT CONFIRMED: $W kept"; exit 1; }
BASE=$(git -C $W rev-parse --short HEAD)
python3 - "$D" "$P" "$CH" "$NEEDS" "$BASE" <<'PY'
import json,sys,os
d,p,ch,needs,base=sys.argv[1:6]
json.dump({"id":os.path.basename(d),"property":p,"checks":[p],"base":base,"origin":"independent sub-agent given only the property text and a scratch worktree","change":ch,"needs_to_manifest":needs,"confirmed":"tools/confirm_seed.sh: with the change the repository builds, the full existing suite passes and TestSeedDemo fails; without it TestSeedDemo passes","detection":"see result-quick.txt (tools/run_seeded.sh)"},open(d+"/meta.json","w"),indent=1)
PY
git -C /repo worktree remove --force $W
