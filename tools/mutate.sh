#!/bin/sh
# tools/mutate.sh <stream> <n> <revert:COMMIT | patch:FILE>  -- development aid: runs one correspondence stream
# against a scratch worktree of /repo carrying a change (never touches /repo), prints the result codes.
P=$1; N=$2; CH=$3; W=/tmp/mut-$$
export GOFLAGS=-mod=mod GOPROXY=off GOSUMDB=off GOTOOLCHAIN=local
git -C /repo worktree add -q --detach $W HEAD || exit 1
case "$CH" in
  revert:*) (cd $W && git revert --no-commit ${CH#revert:} >/dev/null 2>&1) || { echo "revert failed"; git -C /repo worktree remove --force $W; exit 1; } ;;
  patch:*) (cd $W && git apply ${CH#patch:}) || { echo "apply failed"; git -C /repo worktree remove --force $W; exit 1; } ;;
esac
(cd $W && go build ./... ) || { echo "does not compile"; git -C /repo worktree remove --force $W; exit 1; }
mkdir -p /verif/build/mut && sed "s#=> /repo#=> $W#" /verif/harness/go.mod > /verif/build/mut/go.mod && cp $W/go.sum /verif/build/mut/go.sum
/verif/build/clockoverlay -repo $W -out /verif/build/mut/overlay >/dev/null
DRV=$(python3 - <<PY
import sys; sys.path.insert(0,'/verif'); import props
for pid,c in props.PROPS.items():
    for s in c.get('streams',[]):
        if s['name']=="$P": print(s['driver']); raise SystemExit
print("drive_nfs")
PY
)
(cd /verif/harness && CGO_ENABLED=0 go build -tags verif -modfile=/verif/build/mut/go.mod -overlay /verif/build/mut/overlay.json -o /verif/build/mut/drv ./cmd/$DRV) || { git -C /repo worktree remove --force $W; exit 1; }
(cd /verif/coq && make Corr/$P.vo 2>&1 | grep -i error)
rm -rf /verif/build/mut/cases; /verif/build/mut/drv -prop $P -seed 7 -n $N -out /verif/build/mut/cases 2>/dev/null
cd /verif/build/mut/cases && ls cases_*.v | xargs -P 14 -I{} sh -c 'coqc -R /verif/coq Verif {} > {}.out 2>&1'
cat cases_*.v.out | tr -d '\n' | sed 's/  */ /g' | grep -o "([0-9]*, [0-9]*, [0-9]*)" | awk -F'[(, )]+' '{c[$4]++} END {for (k in c) printf "code %s: %d  ", k, c[k]; print ""}'
git -C /repo worktree remove --force $W
